// C11: conversions between BitVector / SparseVector / RLVector preserve the bits and are canonical:
// every chain of conversions and every builder route gives a structure that is == to, and serializes like,
// the one the target type's own builder produces from the same bits.
use crate::bvgen::*;
use crate::common::*;
use simple_sds::bit_vector::BitVector;
use simple_sds::ops::*;
use simple_sds::raw_vector::{PopRaw, PushRaw, RawVector};
use simple_sds::rl_vector::{RLBuilder, RLVector};
use simple_sds::sparse_vector::{SparseBuilder, SparseVector};
use std::convert::TryFrom;

const DBG: bool = cfg!(debug_assertions);
const PATH: u64 = if cfg!(all(target_arch = "x86_64", target_feature = "bmi2")) { 0 } else { 1 };

// ---------------------------------------------------------------- the three types behind one face

#[derive(Clone, PartialEq)]
enum V {
    B(BitVector),
    S(SparseVector),
    R(RLVector),
}

impl V {
    fn len(&self) -> usize {
        match self {
            V::B(x) => x.len(),
            V::S(x) => x.len(),
            V::R(x) => x.len(),
        }
    }
    fn ones(&self) -> usize {
        match self {
            V::B(x) => x.count_ones(),
            V::S(x) => x.count_ones(),
            V::R(x) => x.count_ones(),
        }
    }
    // the set positions: what one_iter() yields, which must also be exactly where get() answers true (random access
    // goes through the samples / supports, the iterator does not) - when the two disagree the get() view is reported
    fn positions(&self) -> Vec<usize> {
        let it: Vec<usize> = match self {
            V::B(x) => x.one_iter().map(|(_, p)| p).collect(),
            V::S(x) => x.one_iter().map(|(_, p)| p).collect(),
            V::R(x) => x.one_iter().map(|(_, p)| p).collect(),
        };
        if self.len() <= 6000 {
            let by_get: Vec<usize> = match self {
                V::B(x) => (0..x.len()).filter(|i| x.get(*i)).collect(),
                V::S(x) => (0..x.len()).filter(|i| x.get(*i)).collect(),
                V::R(x) => (0..x.len()).filter(|i| x.get(*i)).collect(),
            };
            if by_get != it {
                return by_get;
            }
        }
        it
    }
    fn ser(&self) -> Vec<u64> {
        match self {
            V::B(x) => serialize_elems(x),
            V::S(x) => serialize_elems(x),
            V::R(x) => serialize_elems(x),
        }
    }
    // via 0: From (by value, distinct types only); otherwise copy_bit_vec (by reference)
    fn conv(&self, target: u64, via: u64) -> V {
        if via == 0 {
            match (self.clone(), target) {
                (V::S(x), 0) => V::B(BitVector::from(x)),
                (V::R(x), 0) => V::B(BitVector::from(x)),
                (V::B(x), 1) => V::S(SparseVector::from(x)),
                (V::R(x), 1) => V::S(SparseVector::from(x)),
                (V::B(x), 2) => V::R(RLVector::from(x)),
                (V::S(x), 2) => V::R(RLVector::from(x)),
                _ => panic!("harness: From between identical types"),
            }
        } else {
            match (self, target) {
                (V::B(x), 0) => V::B(BitVector::copy_bit_vec(x)),
                (V::S(x), 0) => V::B(BitVector::copy_bit_vec(x)),
                (V::R(x), 0) => V::B(BitVector::copy_bit_vec(x)),
                (V::B(x), 1) => V::S(SparseVector::copy_bit_vec(x)),
                (V::S(x), 1) => V::S(SparseVector::copy_bit_vec(x)),
                (V::R(x), 1) => V::S(SparseVector::copy_bit_vec(x)),
                (V::B(x), _) => V::R(RLVector::copy_bit_vec(x)),
                (V::S(x), _) => V::R(RLVector::copy_bit_vec(x)),
                (V::R(x), _) => V::R(RLVector::copy_bit_vec(x)),
            }
        }
    }
}

// ---------------------------------------------------------------- direct builds

fn runs_of(bits: &[bool]) -> Vec<(usize, usize)> {
    let mut runs = Vec::new();
    let mut i = 0;
    while i < bits.len() {
        if bits[i] {
            let s = i;
            while i < bits.len() && bits[i] {
                i += 1;
            }
            runs.push((s, i - s));
        } else {
            i += 1;
        }
    }
    runs
}

// BitVector from a RawVector and from a bool iterator
fn direct_bv(bits: &[bool]) -> (BitVector, bool) {
    let words = to_words(bits);
    let mut raw = RawVector::with_capacity(bits.len());
    let mut left = bits.len();
    for w in words.iter() {
        let k = std::cmp::min(64, left);
        unsafe { raw.push_int(*w, k); }
        left -= k;
    }
    // the raw vector has a history: one more integer of all ones was pushed (a width that makes it straddle a word
    // boundary where possible) and popped again; or the vector was a few set bits longer and was resized down
    match bits.len() % 3 {
        0 => {
            let w = [40usize, 13, 64, 7][(bits.len() / 3) % 4];
            unsafe { raw.push_int(u64::MAX, w); }
            let _ = unsafe { raw.pop_int(w) };
        }
        1 => {
            let extra = 1 + (bits.len() / 3) % 9;
            for _ in 0..extra {
                raw.push_bit(true);
            }
            raw.resize(bits.len(), false);
        }
        _ => {}
    }
    let a = BitVector::from(raw);
    let b: BitVector = bits.iter().cloned().collect();
    let same = a == b && serialize_elems(&a) == serialize_elems(&b);
    (a, same)
}

// SparseVector from SparseBuilder::new + set, and + extend
fn direct_sv(len: usize, ones: &[usize]) -> (SparseVector, bool) {
    let mut b1 = SparseBuilder::new(len, ones.len()).unwrap();
    for p in ones.iter() {
        b1.set(*p);
    }
    let a = SparseVector::try_from(b1).unwrap();
    let mut b2 = SparseBuilder::new(len, ones.len()).unwrap();
    b2.extend(ones.iter().cloned());
    let b = SparseVector::try_from(b2).unwrap();
    let same = a == b && serialize_elems(&a) == serialize_elems(&b);
    (a, same)
}

// RLVector from try_set by maximal runs + set_len
fn direct_rl(len: usize, runs: &[(usize, usize)]) -> RLVector {
    let mut b = RLBuilder::new();
    for (s, l) in runs.iter() {
        b.try_set(*s, *l).unwrap();
    }
    b.set_len(len);
    RLVector::from(b)
}

// low.width from the serialized sparse vector (same layout walk as the C02 harness)
fn width_of(ser: &[u64]) -> u64 {
    let mut p = 1; // len
    p += 1; // ones
    p += 1; // raw len
    let nwords = ser[p] as usize;
    p += 1 + nwords;
    for _ in 0..3 {
        let sz = ser[p] as usize;
        p += 1 + sz;
    }
    ser[p + 1]
}

// ---------------------------------------------------------------- RLBuilder decompositions

#[derive(Clone, Debug)]
enum Op {
    TrySet(usize, usize),
    SetLen(usize),
    SetBit(usize),
}

fn op_term(o: &Op) -> String {
    match o {
        Op::TrySet(s, l) => format!("STrySet {} {}", s, l),
        Op::SetLen(l) => format!("SSetLen {}", l),
        Op::SetBit(i) => format!("SSetBit {}", i),
    }
}

fn construct(ops: &[Op]) -> (Vec<bool>, RLVector) {
    let mut b = RLBuilder::new();
    let mut oks = Vec::new();
    for op in ops {
        match op {
            Op::TrySet(s, l) => oks.push(b.try_set(*s, *l).is_ok()),
            Op::SetLen(l) => {
                b.set_len(*l);
                oks.push(true)
            }
            Op::SetBit(i) => {
                unsafe { b.set_bit_unchecked(*i) };
                oks.push(true)
            }
        }
    }
    (oks, RLVector::from(b))
}

// split a run into adjacent pieces
fn split_run(rng: &mut Rng, s: usize, l: usize, max_piece: usize, ops: &mut Vec<Op>) {
    let mut off = 0;
    while off < l {
        let piece = 1 + rng.below(std::cmp::min(max_piece, l - off) as u64) as usize;
        ops.push(Op::TrySet(s + off, piece));
        off += piece;
    }
}

// every decomposition presents exactly `runs` and ends at length `len` (the last run ends at len when the
// final set_len is left out)
fn decompositions(rng: &mut Rng, len: usize, runs: &[(usize, usize)], nrandom: usize) -> Vec<(&'static str, Vec<Op>)> {
    let mut out: Vec<(&'static str, Vec<Op>)> = Vec::new();
    let ends_at_len = match runs.last() {
        Some((s, l)) => s + l == len,
        None => len == 0,
    };
    // bit at a time through try_set
    let mut ops = Vec::new();
    for (s, l) in runs.iter() {
        for i in *s..(*s + *l) {
            ops.push(Op::TrySet(i, 1));
        }
    }
    ops.push(Op::SetLen(len));
    if ops.len() <= 1200 {
        out.push(("bits", ops));
    }
    // bit at a time through set_bit_unchecked (what copy_bit_vec does)
    let mut ops = Vec::new();
    for (s, l) in runs.iter() {
        for i in *s..(*s + *l) {
            ops.push(Op::SetBit(i));
        }
    }
    ops.push(Op::SetLen(len));
    out.push(("set_bit", ops));
    // maximal runs without the final set_len
    if ends_at_len {
        out.push(("runs_no_set_len", runs.iter().map(|(s, l)| Op::TrySet(*s, *l)).collect()));
        let mut ops = Vec::new();
        for (s, l) in runs.iter() {
            split_run(rng, *s, *l, 3, &mut ops);
        }
        out.push(("pieces_no_set_len", ops));
    }
    // every gap declared with set_len exactly at the start of the next run (fresh builder included), runs in
    // pieces of at most 2
    let mut ops = Vec::new();
    for (s, l) in runs.iter() {
        ops.push(Op::SetLen(*s));
        split_run(rng, *s, *l, 2, &mut ops);
    }
    ops.push(Op::SetLen(len));
    out.push(("gaps_exact", ops));
    // gaps declared in two steps (the second set_len finds no active run), whole runs
    let mut ops = Vec::new();
    let mut cur = 0;
    for (s, l) in runs.iter() {
        if *s > cur + 1 {
            ops.push(Op::SetLen(cur + 1 + rng.below((*s - cur - 1) as u64) as usize));
        }
        ops.push(Op::SetLen(*s));
        ops.push(Op::TrySet(*s, *l));
        cur = *s + *l;
    }
    if len > cur + 1 {
        ops.push(Op::SetLen(cur + 1 + rng.below((len - cur - 1) as u64) as usize));
    }
    ops.push(Op::SetLen(len));
    ops.push(Op::SetLen(len));
    out.push(("gaps_two_steps", ops));
    // set_len with exactly the current length between the two halves of each run, and in front of each run after the
    // gap was declared (documented: no effect)
    let mut ops = Vec::new();
    for (s, l) in runs.iter() {
        ops.push(Op::SetLen(*s));
        ops.push(Op::SetLen(*s));
        if *l >= 2 {
            ops.push(Op::TrySet(*s, *l / 2));
            ops.push(Op::SetLen(*s + *l / 2));
            ops.push(Op::TrySet(*s + *l / 2, *l - *l / 2));
        } else {
            ops.push(Op::TrySet(*s, *l));
        }
        ops.push(Op::SetLen(*s + *l));
    }
    ops.push(Op::SetLen(len));
    out.push(("set_len_exact", ops));
    // empty runs everywhere: before each run, between the two halves of each run, and beyond the end
    let mut ops = Vec::new();
    for (s, l) in runs.iter() {
        ops.push(Op::TrySet(*s + rng.below(3) as usize, 0));
        if *l >= 2 {
            ops.push(Op::TrySet(*s, *l / 2));
            ops.push(Op::TrySet(*s + *l / 2 + 1 + rng.below(9) as usize, 0));
            ops.push(Op::TrySet(*s + *l / 2, *l - *l / 2));
        } else {
            ops.push(Op::TrySet(*s, *l));
        }
    }
    ops.push(Op::SetLen(len));
    ops.push(Op::TrySet(len + 1 + rng.below(77) as usize, 0));
    out.push(("empty_runs", ops));
    // random mixtures
    for _ in 0..nrandom {
        let mut ops = Vec::new();
        let mut cur = 0usize;
        let max_piece = *rng.pick(&[1usize, 2, 3, 8, 64, 1000]);
        for (s, l) in runs.iter() {
            match rng.below(6) {
                0 => ops.push(Op::SetLen(*s)),
                1 => ops.push(Op::SetLen(rng.below(*s as u64 + 1) as usize)), // anywhere up to the start; below cur: no effect
                2 => {
                    if *s > cur {
                        ops.push(Op::SetLen(cur + rng.below((*s - cur) as u64 + 1) as usize));
                    }
                    ops.push(Op::SetLen(*s));
                }
                3 => ops.push(Op::TrySet(cur + rng.below((*s - cur) as u64 + 1) as usize, 0)), // empty run: no effect
                _ => {}
            }
            let mut off = 0;
            while off < *l {
                let piece = 1 + rng.below(std::cmp::min(max_piece, *l - off) as u64) as usize;
                ops.push(Op::TrySet(*s + off, piece));
                off += piece;
                if off < *l && rng.below(8) == 0 {
                    // inside a run: a set_len that cannot grow the vector
                    ops.push(Op::SetLen(rng.below((*s + off) as u64 + 1) as usize));
                }
                if off < *l && rng.below(8) == 0 {
                    // inside a run: an empty run somewhere beyond the current length (documented: no effect)
                    ops.push(Op::TrySet(*s + off + 1 + rng.below(50) as usize, 0));
                }
            }
            cur = *s + *l;
        }
        if !(ends_at_len && rng.below(3) == 0) {
            ops.push(Op::SetLen(len));
        }
        if rng.below(4) == 0 {
            ops.push(Op::SetLen(rng.below(len as u64 + 1) as usize));
        }
        if rng.below(3) == 0 {
            // an empty run beyond the final length: no effect on the length
            ops.push(Op::TrySet(len + 1 + rng.below(100) as usize, 0));
        }
        out.push(("random", ops));
    }
    out
}

// ---------------------------------------------------------------- one bit sequence

fn olist(x: &Option<Vec<u64>>) -> String {
    match x {
        Some(v) => format!("(Some {})", nlist(v)),
        None => "None".to_string(),
    }
}

// observations are grouped: all chains (decompositions) with the same observed outcome share one record
struct Ctx<'a> {
    direct: &'a [V; 3],
    direct_ser: &'a [Vec<u64>; 3],
    groups: Vec<(String, Vec<String>)>, // (outcome term, chains)
}

fn add_group(groups: &mut Vec<(String, Vec<String>)>, key: String, member: String) {
    for g in groups.iter_mut() {
        if g.0 == key {
            g.1.push(member);
            return;
        }
    }
    groups.push((key, vec![member]));
}

fn record(ctx: &mut Ctx, out: &mut Out, chain: &[u64], via: u64, v: &V) {
    let t = *chain.last().unwrap() as usize;
    let eq = *v == ctx.direct[t];
    let ser = v.ser();
    let ser_o = if ser == ctx.direct_ser[t] { None } else { Some(ser) };
    let pos = Some(v.positions().iter().map(|p| *p as u64).collect::<Vec<u64>>());
    let key = format!("{} {} {} {} {}", v.len(), v.ones(), olist(&pos), b(eq), olist(&ser_o));
    add_group(&mut ctx.groups, key, format!("({}, {})", nlist(chain), via));
    out.stat(&format!("chain.len{}.via{}", chain.len() - 1, via));
    if !eq || ser_o.is_some() {
        out.stat("chain.not_canonical");
    }
}

fn dfs(ctx: &mut Ctx, out: &mut Out, chain: &mut Vec<u64>, via: u64, v: &V, depth: usize) {
    if depth == 3 {
        return;
    }
    let cur = *chain.last().unwrap();
    for t in 0..3u64 {
        if via == 0 && t == cur {
            continue;
        }
        let r = v.conv(t, via);
        chain.push(t);
        record(ctx, out, chain, via, &r);
        dfs(ctx, out, chain, via, &r, depth + 1);
        chain.pop();
    }
}

fn emit(out: &mut Out, kind: &str, bits: &[bool], rng: &mut Rng, nrandom: usize) {
    let mut rng2 = rng.clone();
    rng.next();
    let r = catch(|| {
        let mut tmp = Out::collector("C11");
        emit_inner(&mut tmp, kind, bits, &mut rng2, nrandom);
        tmp
    });
    match r {
        Res::Ok(tmp) => out.absorb(tmp),
        Res::Panic(k, msg) => {
            let words = to_words(bits);
            out.case("crash", format!("CCrash {} {} {}", bits.len(), nlist(&words), k),
                format!("{{\"len\":{},\"kind\":\"{}\",\"panic\":{:?},\"words\":{:?}}}", bits.len(), kind, msg, if words.len() <= 64 { words.clone() } else { words[..64].to_vec() }), true);
        }
    }
}

fn emit_inner(out: &mut Out, kind: &str, bits: &[bool], rng: &mut Rng, nrandom: usize) {
    let len = bits.len();
    let words = to_words(bits);
    let ones: Vec<usize> = (0..len).filter(|i| bits[*i]).collect();
    let runs = runs_of(bits);
    let (bv, same_bv) = direct_bv(bits);
    let (sv, same_sv) = direct_sv(len, &ones);
    let rl = direct_rl(len, &runs);
    let direct = [V::B(bv.clone()), V::S(sv), V::R(rl)];
    let direct_ser = [direct[0].ser(), direct[1].ser(), direct[2].ser()];
    let w = width_of(&direct_ser[1]);
    out.stat(&format!("sparse_width.{:02}", w));
    let mut ctx = Ctx { direct: &direct, direct_ser: &direct_ser, groups: Vec::new() };
    // the direct structures themselves, then every chain from each of them
    for s in 0..3u64 {
        record(&mut ctx, out, &[s], 1, &direct[s as usize]);
    }
    for via in 0..2u64 {
        for s in 0..3u64 {
            let mut chain = vec![s];
            dfs(&mut ctx, out, &mut chain, via, &direct[s as usize], 0);
        }
    }
    // a source BitVector that carries all its support structures
    let mut full = bv;
    full.enable_rank();
    full.enable_select();
    full.enable_select_zero();
    let full = V::B(full);
    for t in 0..3u64 {
        let r = full.conv(t, 1);
        record(&mut ctx, out, &[0, t], 2, &r);
    }
    out.stat_n("chain.outcome_groups", ctx.groups.len() as u64);
    let chains_t = ctx.groups.iter().map(|g| format!("CG [{}] {}", g.1.join("; "), g.0)).collect::<Vec<String>>().join("; ");
    // builder decompositions
    let mut dgroups: Vec<(String, Vec<String>)> = Vec::new();
    for (dk, ops) in decompositions(rng, len, &runs, nrandom).iter() {
        let (oks, v) = construct(ops);
        let eq = V::R(v.clone()) == direct[2];
        let ser = serialize_elems(&v);
        let ser_o = if ser == direct_ser[2] { None } else { Some(ser) };
        let vruns: Vec<(usize, usize)> = v.run_iter().collect();
        let mut ot = String::from("[");
        for (j, o) in ops.iter().enumerate() {
            if j > 0 {
                ot.push_str("; ");
            }
            ot.push_str(&op_term(o));
        }
        ot.push(']');
        let key = format!("{} {} {} {} {}", v.len(), v.count_ones(), plist(&vruns), b(eq), olist(&ser_o));
        add_group(&mut dgroups, key, format!("({}, {})", ot, blist(&oks)));
        out.stat(&format!("decomp.{}", dk));
        out.stat_n("decomp.calls", ops.len() as u64);
        if !eq || ser_o.is_some() {
            out.stat("decomp.not_canonical");
        }
    }
    let decs = dgroups.iter().map(|g| format!("DG [{}] {}", g.1.join("; "), g.0)).collect::<Vec<String>>().join("; ");
    let term = format!("CConv {} {} {} {} {} {} {} {} {} [{}] [{}]", PATH, b(DBG), len, nlist(&words), w,
        nlist(&direct_ser[0]), nlist(&direct_ser[1]), nlist(&direct_ser[2]), b(same_bv && same_sv), chains_t, decs);
    out.stat(&format!("c11.{}", kind));
    out.stat(&format!("rl_blocks.{}", std::cmp::min(direct_ser[2][2] / 2, 9)));
    out.case(kind, term, format!("{{\"len\":{},\"ones\":{},\"runs\":{},\"kind\":\"{}\",\"words\":{:?}}}", len, ones.len(), runs.len(), kind,
        if words.len() <= 64 { words.clone() } else { words[..64].to_vec() }), len > 0);
}

// ---------------------------------------------------------------- generators

// styles aimed at the run structure: a run at 0, a run ending at len-1, trailing zeros, single bits at the ends
fn edge_bits(rng: &mut Rng, len: usize, which: u64) -> Vec<bool> {
    let mut v = vec![false; len];
    if len == 0 {
        return v;
    }
    match which {
        0 => {
            // run at 0 and run ending at len-1, random runs between
            v = gen_bits(rng, len, Style::Runs(6));
            let a = 1 + rng.below(std::cmp::min(len, 9) as u64) as usize;
            let c = 1 + rng.below(std::cmp::min(len, 9) as u64) as usize;
            for i in 0..a {
                v[i] = true;
            }
            for i in (len - c)..len {
                v[i] = true;
            }
        }
        1 => {
            // trailing zeros after the last run
            v = gen_bits(rng, len, Style::Runs(5));
            let z = 1 + rng.below(std::cmp::min(len, 70) as u64) as usize;
            for i in (len - z)..len {
                v[i] = false;
            }
        }
        2 => v[len - 1] = true,
        3 => v[0] = true,
        4 => {
            // leading zeros, then one run to the end
            let z = rng.below(len as u64) as usize;
            for i in z..len {
                v[i] = true;
            }
        }
        _ => {
            // isolated bits with gaps that need 1, 2, 3.. code units (gap >= 8, 64, 512, 4096)
            let mut p = rng.below(3) as usize;
            while p < len {
                v[p] = true;
                p += 1 + *rng.pick(&[1usize, 6, 7, 8, 9, 63, 64, 65, 511, 512, 513, 4095, 4096]) as usize;
            }
        }
    }
    v
}

pub fn run(rng: &mut Rng, out: &mut Out, thorough: bool, variant: &str) {
    let primary = thorough || variant == "native_dev";
    // exhaustive small scope
    let max_small = if thorough { 9 } else if primary { 8 } else { 5 };
    for len in 0..=max_small {
        for pat in 0..(1u32 << len) {
            let bits: Vec<bool> = (0..len).map(|i| (pat >> i) & 1 == 1).collect();
            emit(out, "exhaustive", &bits, rng, 2);
        }
    }
    // word and block boundaries x styles
    let reps = if thorough { 4 } else { 1 };
    for len in [63usize, 64, 65, 511, 512, 513] {
        for _ in 0..reps {
            for style in [Style::Zeros, Style::Ones, Style::Sparse(7), Style::Sparse(60), Style::Dense(8), Style::Half, Style::Runs(3), Style::Runs(20)] {
                let bits = gen_bits(rng, len, style);
                emit(out, "boundary", &bits, rng, 3);
            }
            for which in 0..6 {
                let bits = edge_bits(rng, len, which);
                emit(out, "boundary_edge", &bits, rng, 3);
            }
        }
    }
    for len in [1usize, 2, 62, 66, 127, 128, 129, 1023, 1024, 1025, 4096] {
        for _ in 0..reps {
            let style = pick_style(rng);
            emit(out, "boundary", &gen_bits(rng, len, style), rng, 3);
            let which = rng.below(6);
            emit(out, "boundary_edge", &edge_bits(rng, len, which), rng, 3);
        }
    }
    // random lengths
    for _ in 0..(if thorough { 400 } else if primary { 40 } else { 16 }) {
        let len = match rng.below(3) {
            0 => rng.below(100),
            1 => rng.below(600),
            _ => rng.below(1500),
        } as usize;
        if rng.below(3) == 0 {
            let which = rng.below(6);
            emit(out, "random_edge", &edge_bits(rng, len, which), rng, 3);
        } else {
            let style = pick_style(rng);
            emit(out, "random", &gen_bits(rng, len, style), rng, 3);
        }
    }
    // the run-length block-filling rule at its edges (common::rl_directed): the run with the critical gap / length
    // arrives with one code unit too few, exactly enough, one to spare; long ones on the primary variant only
    for v in rl_unit_boundaries(4) {
        if v > 600 && !primary {
            continue;
        }
        for in_len in [false, true] {
            for slack in [-1i64, 0, 1] {
                if !thorough && slack == 1 && !rng.chance(1, 3) {
                    continue;
                }
                let (_, mut runs) = rl_directed(rng, v, in_len, slack, 0, 3);
                // keep the vector short: drop far-away trailing runs (at least one run follows the critical one)
                while runs.len() >= 3 {
                    let n = runs.len();
                    if runs[n - 1].0 + runs[n - 1].1 > runs[n - 2].0 + runs[n - 2].1 + 700 && n >= 4 && runs[n - 2].0 > runs[n - 3].0 {
                        runs.pop();
                    } else {
                        break;
                    }
                }
                let last = runs[runs.len() - 1];
                let len = last.0 + last.1 + rng.below(3) as usize;
                let mut bits = vec![false; len];
                for (s0, l0) in runs.iter() {
                    for i in *s0..(*s0 + *l0) {
                        bits[i] = true;
                    }
                }
                emit(out, "rl_block_edge", &bits, rng, 1);
            }
        }
    }
    // the position stored in the last block sample of the run-length vector is exactly a power of two
    for _ in 0..(if thorough { 8 } else if primary { 3 } else { 1 }) {
        if let Some((len, runs)) = rl_pow2_tail(rng, 13) {
            let mut bits = vec![false; len];
            for (s0, l0) in runs.iter() {
                for i in *s0..(*s0 + *l0) {
                    bits[i] = true;
                }
            }
            emit(out, "rl_pow2_tail", &bits, rng, 1);
        }
    }
    // a few long ones (several RL blocks, several words of the sparse high part)
    let long_styles = [Style::Runs(4), Style::Sparse(9), Style::Half, Style::Dense(20), Style::Runs(60), Style::Sparse(400), Style::Ones, Style::Clusters];
    let nlong = if thorough { 32 } else if primary { 4 } else { 1 };
    for i in 0..nlong {
        let len = 4990 + rng.below(21) as usize;
        let bits = if i % 4 == 3 { edge_bits(rng, len, (i as u64 / 4) % 6) } else { gen_bits(rng, len, long_styles[i % long_styles.len()]) };
        emit(out, "long", &bits, rng, 1);
    }
}
