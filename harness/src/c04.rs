// C04: wavelet matrix reproduces the vector and answers rank/select-type queries; WMCore maps positions
// to the stable sort by reversed bits and back.
use crate::bvgen::{extremes, serialize_elems};
use crate::common::*;
use simple_sds::ops::*;
use simple_sds::wavelet_matrix::wm_core::WMCore;
use simple_sds::wavelet_matrix::WaveletMatrix;
use std::fmt::Write;

const DBG: bool = cfg!(debug_assertions);
const PATH: u64 = if cfg!(all(target_arch = "x86_64", target_feature = "bmi2")) { 0 } else { 1 };

// item types as the number of bits (65 = usize)
const TYPES: [u64; 5] = [8, 16, 32, 64, 65];

fn fits(ty: u64, max: u64) -> bool {
    match ty {
        8 => max <= u8::MAX as u64,
        16 => max <= u16::MAX as u64,
        32 => max <= u32::MAX as u64,
        _ => true,
    }
}

fn build(ty: u64, v: &[u64]) -> Res<(WaveletMatrix, WMCore)> {
    let v = v.to_vec();
    catch(move || match ty {
        8 => {
            let s: Vec<u8> = v.iter().map(|x| *x as u8).collect();
            (WaveletMatrix::from(s.clone()), WMCore::from(s))
        }
        16 => {
            let s: Vec<u16> = v.iter().map(|x| *x as u16).collect();
            (WaveletMatrix::from(s.clone()), WMCore::from(s))
        }
        32 => {
            let s: Vec<u32> = v.iter().map(|x| *x as u32).collect();
            (WaveletMatrix::from(s.clone()), WMCore::from(s))
        }
        64 => {
            let s: Vec<u64> = v.clone();
            (WaveletMatrix::from(s.clone()), WMCore::from(s))
        }
        _ => {
            let s: Vec<usize> = v.iter().map(|x| *x as usize).collect();
            (WaveletMatrix::from(s.clone()), WMCore::from(s))
        }
    })
}

fn opair(x: &Option<(usize, u64)>) -> String {
    opt(x, |p| format!("({}, {})", p.0, p.1))
}

struct Q {
    s: String,
    n: usize,
    panics: Vec<String>,
}

impl Q {
    fn push(&mut self, t: String) {
        if self.n > 0 {
            self.s.push_str("; ");
        }
        self.n += 1;
        self.s.push_str(&t);
    }
    fn note<T>(&mut self, what: String, r: &Res<T>) {
        if let Res::Panic(k, m) = r {
            if self.panics.len() < 8 {
                self.panics.push(format!("{{\"call\":{:?},\"class\":{},\"msg\":{:?}}}", what, k, m));
            }
        }
    }
}

fn dedup(mut v: Vec<u64>) -> Vec<u64> {
    v.sort();
    v.dedup();
    v
}

// value arguments: present values, absent values inside the alphabet, just outside, far outside, aliases
fn value_args(rng: &mut Rng, v: &[u64], width: usize, small: bool) -> Vec<u64> {
    let max = v.iter().cloned().max().unwrap_or(0);
    let mut present: Vec<u64> = dedup(v.to_vec());
    let mut absent: Vec<u64> = Vec::new();
    if max <= 70000 {
        let mut it = present.iter().peekable();
        for x in 0..=max {
            if it.peek().map(|p| **p == x).unwrap_or(false) {
                it.next();
            } else {
                absent.push(x);
            }
        }
    }
    let mut out: Vec<u64> = Vec::new();
    let keep = if small { 5 } else { 4 };
    if present.len() > keep {
        let lo = present[0];
        let hi = present[present.len() - 1];
        let mut pick = vec![lo, hi];
        for _ in 0..(keep - 2) {
            pick.push(*rng.pick(&present));
        }
        present = dedup(pick);
    }
    if absent.len() > 3 {
        let pick = vec![absent[0], absent[absent.len() - 1], *rng.pick(&absent)];
        absent = dedup(pick);
    }
    out.extend(present.iter());
    out.extend(absent.iter());
    let top = if width >= 64 { 0 } else { 1u64 << width };
    out.push(max.wrapping_add(1));
    out.push(top);
    if let Some(p) = present.first() {
        out.push(top.wrapping_add(*p)); // same low bits as a present value, outside the alphabet
    }
    if let Some(p) = present.last() {
        out.push((1u64 << 63) | *p);
    }
    if top > max + 2 {
        out.push(top - 1); // inside 2^width but beyond max: not in `first`
    }
    out.push(1u64 << 63);
    out.push(u64::MAX);
    dedup(out)
}

fn emit(out: &mut Out, rng: &mut Rng, kind: &str, ty: u64, v: &[u64], full: bool) {
    let n = v.len();
    let max = v.iter().cloned().max().unwrap_or(0);
    let built = build(ty, v);
    let (wm, core) = match built {
        Res::Ok(x) => x,
        Res::Panic(k, msg) => {
            out.stat("c04.build_panic");
            out.case(kind, format!("CBuildPanic {} {} {} {} {}", PATH, b(DBG), ty, nlist(v), k),
                format!("{{\"kind\":\"{}\",\"ty\":{},\"V\":{:?},\"build_panic\":{:?}}}", kind, ty, v, msg), true);
            return;
        }
    };
    let ser = serialize_elems(&wm);
    let cser = serialize_elems(&core);
    // every item type that can hold V builds the same structure; the core is the matrix's core
    let mut same = ser.len() > cser.len() && ser[1..1 + cser.len()] == cser[..];
    for t in TYPES.iter() {
        if *t != ty && fits(*t, max) {
            match build(*t, v) {
                Res::Ok((w2, c2)) => {
                    same = same && w2 == wm && c2 == core && serialize_elems(&w2) == ser && serialize_elems(&c2) == cser;
                }
                Res::Panic(_, _) => same = false,
            }
        }
    }
    let width = wm.width();
    let items = catch(|| wm.iter().collect::<Vec<u64>>());
    let items2 = {
        let w2 = wm.clone();
        catch(move || w2.into_iter().collect::<Vec<u64>>())
    };
    let mut q = Q { s: String::from("["), n: 0, panics: Vec::new() };
    // ---- arguments
    let vals = value_args(rng, v, width, full);
    let mut idxs: Vec<usize> = Vec::new();
    if full {
        idxs.extend(0..=n + 1);
    } else {
        for _ in 0..4 {
            idxs.push(rng.below(n as u64 + 1) as usize);
        }
    }
    idxs.extend(extremes(n));
    idxs.sort();
    idxs.dedup();
    let take = if full { n + 2 } else { 3 };
    // compact form (used when no call panicked): rows of plain answers
    let mut prows = String::from("[");
    let mut vrows = String::from("[");
    let pl = |x: &Res<Vec<(usize, usize)>>| match x { Res::Ok(l) => plist(l), _ => String::new() };
    // ---- per-position queries
    let gets: Vec<usize> = if n <= 64 { (0..n).collect() } else {
        let mut g: Vec<usize> = vec![0, 1, n / 2, n - 2, n - 1];
        for _ in 0..24 {
            g.push(rng.below(n as u64) as usize);
        }
        g.sort();
        g.dedup();
        g
    };
    let mut pos: Vec<usize> = gets.clone();
    pos.extend(extremes(n));
    pos.sort();
    pos.dedup();
    for (k, i) in pos.iter().enumerate() {
        let mut g = String::from("None");
        if *i < n {
            let r = catch(|| wm.get(*i));
            q.note(format!("get({})", i), &r);
            q.push(format!("QGet {} {}", i, ires(&r, |x| n_(*x))));
            if let Res::Ok(x) = &r {
                g = format!("(Some {})", x);
            }
        }
        let r = catch(|| wm.inverse_select(*i));
        q.note(format!("inverse_select({})", i), &r);
        q.push(format!("QInv {} {}", i, ires(&r, |x| opair(x))));
        let r2 = catch(|| core.map_down(*i));
        q.note(format!("map_down({})", i), &r2);
        q.push(format!("QDown {} {}", i, ires(&r2, |x| opair(x))));
        if let (Res::Ok(a), Res::Ok(c)) = (&r, &r2) {
            let _ = write!(prows, "{}PRow {} {} {} {}", if k > 0 { "; " } else { "" }, i, g, opair(a), opair(c));
        }
    }
    prows.push(']');
    // ---- per-value queries
    for (vk, val) in vals.iter().enumerate() {
        let val = *val;
        let rc = catch(|| wm.contains(val));
        q.note(format!("contains({})", val), &rc);
        q.push(format!("QContains {} {}", val, ires(&rc, |x| b(*x))));
        let rv = catch(|| {
            let it = wm.value_iter(val);
            assert!(WaveletMatrix::value_of(&it) == val, "value_of differs");
            it.take(take).collect::<Vec<(usize, usize)>>()
        });
        q.note(format!("value_iter({})", val), &rv);
        q.push(format!("QValIter {} {} {}", val, take, ires(&rv, |x| plist(x))));
        let a = *rng.pick(&idxs);
        let c = *rng.pick(&idxs);
        let rt = catch(|| core.map_down_with_two_positions(a, c, val));
        q.note(format!("map_down_with_two_positions({}, {}, {})", a, c, val), &rt);
        q.push(format!("QDownTwo {} {} {} {}", a, c, val, ires(&rt, |x| format!("({}, {})", x.0, x.1))));
        let _ = write!(vrows, "{}VRow {} {} {} {} {} {} [", if vk > 0 { "; " } else { "" }, val,
            match &rc { Res::Ok(x) => b(*x), _ => String::new() }, pl(&rv), a, c,
            match &rt { Res::Ok(x) => format!("({}, {})", x.0, x.1), _ => String::new() });
        for (ik, i) in idxs.iter().enumerate() {
            let i = *i;
            let r1 = catch(|| wm.rank(i, val));
            q.note(format!("rank({}, {})", i, val), &r1);
            q.push(format!("QRank {} {} {}", i, val, ires(&r1, |x| nu(*x))));
            let r2 = catch(|| wm.select(i, val));
            q.note(format!("select({}, {})", i, val), &r2);
            q.push(format!("QSel {} {} {}", i, val, ires(&r2, |x| opt(x, |p| nu(*p)))));
            let r3 = catch(|| wm.predecessor(i, val).take(take).collect::<Vec<(usize, usize)>>());
            q.note(format!("predecessor({}, {})", i, val), &r3);
            q.push(format!("QPred {} {} {} {}", i, val, take, ires(&r3, |x| plist(x))));
            let r4 = catch(|| wm.successor(i, val).take(take).collect::<Vec<(usize, usize)>>());
            q.note(format!("successor({}, {})", i, val), &r4);
            q.push(format!("QSucc {} {} {} {}", i, val, take, ires(&r4, |x| plist(x))));
            let r5 = catch(|| wm.select_iter(i, val).take(take).collect::<Vec<(usize, usize)>>());
            q.note(format!("select_iter({}, {})", i, val), &r5);
            q.push(format!("QSelIter {} {} {} {}", i, val, take, ires(&r5, |x| plist(x))));
            let r6 = catch(|| core.map_down_with(i, val));
            q.note(format!("map_down_with({}, {})", i, val), &r6);
            q.push(format!("QDownWith {} {} {}", i, val, ires(&r6, |x| nu(*x))));
            let r7 = catch(|| core.map_up_with(i, val));
            q.note(format!("map_up_with({}, {})", i, val), &r7);
            q.push(format!("QUpWith {} {} {}", i, val, ires(&r7, |x| opt(x, |p| nu(*p)))));
            if let (Res::Ok(x1), Res::Ok(x2), Res::Ok(x6), Res::Ok(x7)) = (&r1, &r2, &r6, &r7) {
                let _ = write!(vrows, "{}Cell {} {} {} {} {} {} {}", if ik > 0 { "; " } else { "" }, x1, opt(x2, |p| nu(*p)),
                    pl(&r3), pl(&r4), pl(&r5), x6, opt(x7, |p| nu(*p)));
            }
        }
        vrows.push(']');
    }
    vrows.push(']');
    q.s.push(']');
    let mut term = String::new();
    let verbose = !q.panics.is_empty();
    let _ = write!(term, "{} {} {} {} {} {} {} {} {} {} {} {} {} ", if verbose { "CWM" } else { "CWMc" }, PATH, b(DBG), ty, nlist(v), b(same), wm.len(), width,
        core.len(), core.width(), nlist(&ser), ires(&items, |x| nlist(x)), ires(&items2, |x| nlist(x)));
    if verbose {
        term.push_str(&q.s);
    } else {
        let _ = write!(term, "{} {} {} {}", prows, take, ulist(&idxs), vrows);
    }
    out.stat(&format!("c04.{}", kind));
    out.stat(&format!("c04.width.{}", width));
    out.stat(&format!("c04.type.{}", ty));
    out.stat_n("c04.queries", q.n as u64);
    if verbose {
        out.stat_n("c04.panicking_calls", q.panics.len() as u64);
    }
    let shown: Vec<u64> = if v.len() <= 400 { v.to_vec() } else { v[..400].to_vec() };
    out.case(kind, term, format!("{{\"kind\":\"{}\",\"ty\":{},\"len\":{},\"width\":{},\"V\":{:?},\"panics\":[{}]}}", kind, ty, n, width, shown, q.panics.join(",")), n > 0);
}

fn n_(x: u64) -> String {
    format!("{}", x)
}

#[derive(Clone, Copy, Debug)]
enum Alpha {
    Dense,
    Sparse,
    Single,
    BoundLow,  // max = 2^k - 1
    BoundHigh, // max = 2^(k-1), the smallest value of its width
    Skewed,
}

// a vector of width exactly `w` (max has w bits), `len` >= 1 items
fn gen_vec(rng: &mut Rng, w: u32, len: usize, a: Alpha) -> Vec<u64> {
    let lo: u64 = if w == 1 { 0 } else { 1u64 << (w - 1) };
    let hi: u64 = (1u64 << w) - 1;
    let mut v: Vec<u64> = Vec::with_capacity(len);
    match a {
        Alpha::Dense => {
            let max = rng.range(lo, hi);
            for _ in 0..len {
                v.push(rng.below(max + 1));
            }
            v[0] = max;
        }
        Alpha::Sparse => {
            // a handful of symbols out of the alphabet
            let max = rng.range(lo, hi);
            let k = 1 + rng.below(5) as usize;
            let mut syms: Vec<u64> = (0..k).map(|_| rng.below(max + 1)).collect();
            syms.push(max);
            for _ in 0..len {
                v.push(*rng.pick(&syms));
            }
            v[rng.below(len as u64) as usize] = max;
        }
        Alpha::Single => {
            let s = if w == 1 { rng.below(2) } else { rng.range(lo, hi) };
            for _ in 0..len {
                v.push(s);
            }
        }
        Alpha::BoundLow => {
            for _ in 0..len {
                v.push(rng.below(hi + 1));
            }
            v[rng.below(len as u64) as usize] = hi;
        }
        Alpha::BoundHigh => {
            let max = if w == 1 { 1 } else { lo };
            for _ in 0..len {
                v.push(rng.below(max + 1));
            }
            v[rng.below(len as u64) as usize] = max;
        }
        Alpha::Skewed => {
            let max = rng.range(lo, hi);
            let heavy = rng.below(max + 1);
            for _ in 0..len {
                v.push(if rng.below(10) < 8 { heavy } else if rng.below(2) == 0 { rng.below(max + 1) } else { rng.below(std::cmp::min(max, 3) + 1) });
            }
            v[rng.below(len as u64) as usize] = max;
        }
    }
    v
}

fn pick_type(rng: &mut Rng, max: u64) -> u64 {
    loop {
        let t = *rng.pick(&TYPES);
        if fits(t, max) {
            return t;
        }
    }
}

pub fn run(rng: &mut Rng, out: &mut Out, thorough: bool) {
    // ---- exhaustive small scope: every V with |V| <= 5 over values 0..3
    let max_small = if thorough { 6 } else { 5 };
    let mut count = 0u64;
    for len in 0..=max_small {
        let total = 4u64.pow(len as u32);
        for code in 0..total {
            let v: Vec<u64> = (0..len).map(|i| (code >> (2 * i)) & 3).collect();
            let ty = TYPES[(count % 5) as usize];
            count += 1;
            emit(out, rng, "exhaustive", ty, &v, true);
        }
    }
    // ---- the empty vector and tiny vectors in every item type
    for ty in TYPES.iter() {
        emit(out, rng, "tiny", *ty, &[], true);
        emit(out, rng, "tiny", *ty, &[0], true);
        emit(out, rng, "tiny", *ty, &[1], true);
        emit(out, rng, "tiny", *ty, &[5, 5], true);
        let top: u64 = match *ty { 8 => 0xFF, 16 => 0xFFFF, _ => 0xFFFF };
        emit(out, rng, "tiny", *ty, &[top, 0, top], true);
    }
    // ---- widths 1..16 x alphabets x lengths
    let alphas = [Alpha::Dense, Alpha::Sparse, Alpha::Single, Alpha::BoundLow, Alpha::BoundHigh, Alpha::Skewed];
    for w in 1..=16u32 {
        for (ak, a) in alphas.iter().enumerate() {
            // wide alphabets are expensive to replay (the offset table has 2^w entries): half of the kinds per width in quick
            if w >= 13 && !thorough && (ak as u32 + w) % 2 == 1 {
                continue;
            }
            let mut lens: Vec<usize> = Vec::new();
            if w <= 12 {
                lens.push(*rng.pick(&[1usize, 2, 3]));
                lens.push(rng.range(5, 40) as usize);
                lens.push(rng.range(250, 340) as usize);
            } else {
                lens.push(*rng.pick(&[1usize, 2, 17, 300]));
                if thorough {
                    lens.push(rng.range(250, 340) as usize);
                }
            }
            if thorough && w <= 12 {
                lens.push(rng.range(40, 250) as usize);
                lens.push(rng.range(340, 700) as usize);
            }
            for len in lens {
                let v = gen_vec(rng, w, len, *a);
                let max = v.iter().cloned().max().unwrap_or(0);
                let ty = pick_type(rng, max);
                emit(out, rng, &format!("{:?}", a).to_lowercase(), ty, &v, len <= 40);
            }
        }
    }
    // ---- a few long vectors (several rank blocks and select superblocks per level)
    let longs: Vec<(u32, usize, Alpha)> = if thorough {
        vec![(1, 3000, Alpha::Dense), (2, 2900, Alpha::Skewed), (3, 3100, Alpha::Dense), (5, 4097, Alpha::Sparse), (6, 3000, Alpha::BoundLow),
             (7, 3300, Alpha::BoundHigh), (8, 5000, Alpha::Dense), (9, 3000, Alpha::Skewed), (1, 8200, Alpha::Single), (4, 9000, Alpha::Dense)]
    } else {
        vec![(1, 3000, Alpha::Dense), (3, 3100, Alpha::Skewed), (6, 2900, Alpha::Dense), (8, 3000, Alpha::BoundHigh)]
    };
    for (w, len, a) in longs {
        let v = gen_vec(rng, w, len, a);
        let ty = pick_type(rng, v.iter().cloned().max().unwrap_or(0));
        emit(out, rng, "long", ty, &v, false);
    }
}
