// Shared infrastructure of the correspondence harness: PRNG, panic classification,
// Coq-term emission, sharded case files, statistics.
use std::cell::RefCell;
use std::collections::BTreeMap;
use std::fmt::Write as FmtWrite;
use std::fs;
use std::panic::{self, AssertUnwindSafe};
use std::path::Path;

// ---------------------------------------------------------------- PRNG (xorshift64*)

#[derive(Clone)]
pub struct Rng(pub u64);

impl Rng {
    pub fn new(seed: u64) -> Rng {
        let mut r = Rng(seed ^ 0x9E37_79B9_7F4A_7C15);
        if r.0 == 0 {
            r.0 = 0x1234_5678_9ABC_DEF1;
        }
        for _ in 0..4 {
            r.next();
        }
        r
    }
    pub fn next(&mut self) -> u64 {
        let mut x = self.0;
        x ^= x >> 12;
        x ^= x << 25;
        x ^= x >> 27;
        self.0 = x;
        x.wrapping_mul(0x2545_F491_4F6C_DD1D)
    }
    pub fn below(&mut self, n: u64) -> u64 {
        if n == 0 {
            0
        } else {
            self.next() % n
        }
    }
    pub fn range(&mut self, lo: u64, hi: u64) -> u64 {
        lo + self.below(hi - lo + 1)
    }
    pub fn chance(&mut self, num: u64, den: u64) -> bool {
        self.below(den) < num
    }
    pub fn pick<'a, T>(&mut self, xs: &'a [T]) -> &'a T {
        &xs[self.below(xs.len() as u64) as usize]
    }
    // a 64-bit word with structure: random, sparse, dense, runs, boundary patterns
    pub fn word(&mut self) -> u64 {
        match self.below(10) {
            0 => 0,
            1 => !0u64,
            2 => 1u64 << self.below(64),
            3 => !(1u64 << self.below(64)),
            4 => self.next() & self.next() & self.next(),
            5 => self.next() | self.next() | self.next(),
            6 => {
                let a = self.below(64);
                let b = self.below(64);
                let (lo, hi) = if a < b { (a, b) } else { (b, a) };
                let m = if hi - lo == 63 { !0u64 } else { ((1u64 << (hi - lo + 1)) - 1) << lo };
                m
            }
            7 => 0x8000_0000_0000_0001,
            _ => self.next(),
        }
    }
}

// ---------------------------------------------------------------- panic classification

thread_local! {
    static LAST_PANIC: RefCell<String> = RefCell::new(String::new());
}

pub fn install_panic_hook() {
    panic::set_hook(Box::new(|info| {
        let msg = if let Some(s) = info.payload().downcast_ref::<&str>() {
            s.to_string()
        } else if let Some(s) = info.payload().downcast_ref::<String>() {
            s.clone()
        } else {
            "unknown".to_string()
        };
        LAST_PANIC.with(|p| *p.borrow_mut() = msg);
    }));
}

// numeric classes mirrored in coq/Check/Common.v
pub const P_OVERFLOW: u64 = 1;
pub const P_INDEX: u64 = 2;
pub const P_UNWRAP: u64 = 3;
pub const P_ASSERT: u64 = 4;
pub const P_DOC: u64 = 5;
pub const P_OOB: u64 = 9;

pub fn classify(msg: &str) -> u64 {
    if msg.contains("VERIF-OOB") {
        P_OOB
    } else if msg.contains("overflow") || msg.contains("divide by zero") {
        P_OVERFLOW
    } else if msg.contains("out of bounds") || msg.contains("out of range") || msg.contains("range end index") || msg.contains("range start index") || msg.contains("slice index") {
        P_INDEX
    } else if msg.contains("unwrap()") || msg.contains("called `Option::unwrap") || msg.contains("called `Result::unwrap") {
        P_UNWRAP
    } else if msg.contains("assertion") {
        P_ASSERT
    } else {
        P_DOC
    }
}

#[derive(Clone, Debug, PartialEq)]
pub enum Res<T> {
    Ok(T),
    Panic(u64, String),
}

pub fn catch<T, F: FnOnce() -> T>(f: F) -> Res<T> {
    match panic::catch_unwind(AssertUnwindSafe(f)) {
        Ok(v) => Res::Ok(v),
        Err(_) => {
            let msg = LAST_PANIC.with(|p| p.borrow().clone());
            Res::Panic(classify(&msg), msg)
        }
    }
}

// ---------------------------------------------------------------- Coq terms

// numbers as Coq terms of type N: large ones as `(W hi lo)` (see coq/Check/Common.v), which Coq elaborates
// ten times faster than a 20-digit numeral
pub fn n(x: u64) -> String {
    if x >> 32 == 0 {
        format!("{}", x)
    } else {
        format!("(W {} {})", x >> 32, x & 0xFFFF_FFFF)
    }
}
pub fn nu(x: usize) -> String {
    n(x as u64)
}
pub fn b(x: bool) -> String {
    (if x { "true" } else { "false" }).to_string()
}
pub fn nlist(xs: &[u64]) -> String {
    let mut s = String::from("[");
    for (i, x) in xs.iter().enumerate() {
        if i > 0 {
            s.push_str("; ");
        }
        s.push_str(&n(*x));
    }
    s.push(']');
    s
}
pub fn ulist(xs: &[usize]) -> String {
    let v: Vec<u64> = xs.iter().map(|x| *x as u64).collect();
    nlist(&v)
}
pub fn blist(xs: &[bool]) -> String {
    let mut s = String::from("[");
    for (i, x) in xs.iter().enumerate() {
        if i > 0 {
            s.push_str("; ");
        }
        s.push_str(if *x { "true" } else { "false" });
    }
    s.push(']');
    s
}
pub fn opt<T, F: Fn(&T) -> String>(x: &Option<T>, f: F) -> String {
    match x {
        Some(v) => format!("(Some {})", f(v)),
        None => "None".to_string(),
    }
}
pub fn pair(a: String, b: String) -> String {
    format!("({}, {})", a, b)
}
pub fn plist(xs: &[(usize, usize)]) -> String {
    let mut s = String::from("[");
    for (i, (a, b)) in xs.iter().enumerate() {
        if i > 0 {
            s.push_str("; ");
        }
        let _ = write!(s, "({}, {})", nu(*a), nu(*b));
    }
    s.push(']');
    s
}
// impl result as the Coq type `ires`
pub fn ires<T, F: Fn(&T) -> String>(r: &Res<T>, f: F) -> String {
    match r {
        Res::Ok(v) => format!("(IOk {})", f(v)),
        Res::Panic(k, _) => format!("(IPanic {})", k),
    }
}
pub fn jres<T, F: Fn(&T) -> String>(r: &Res<T>, f: F) -> String {
    match r {
        Res::Ok(v) => format!("{{\"ok\":{}}}", f(v)),
        Res::Panic(k, m) => format!("{{\"panic\":{},\"msg\":{:?}}}", k, m),
    }
}

// ---------------------------------------------------------------- output

pub struct Out {
    prop: String,
    shards: Vec<String>,
    counts: Vec<usize>,
    jsonl: String,
    pub stats: BTreeMap<String, u64>,
    pub n: usize,
    samples: Vec<String>,
    distinct: std::collections::HashSet<u64>,
    pub pending: Vec<(String, String, String, bool)>,
    collect_only: bool,
}

fn fnv(s: &str) -> u64 {
    let mut h: u64 = 0xcbf29ce484222325;
    for b in s.bytes() {
        h ^= b as u64;
        h = h.wrapping_mul(0x100000001b3);
    }
    h
}

impl Out {
    pub fn new(prop: &str, shards: usize) -> Out {
        Out {
            prop: prop.to_string(),
            shards: vec![String::new(); shards],
            counts: vec![0; shards],
            jsonl: String::new(),
            stats: BTreeMap::new(),
            n: 0,
            samples: Vec::new(),
            distinct: std::collections::HashSet::new(),
            pending: Vec::new(),
            collect_only: false,
        }
    }
    // a collector whose cases are moved into the real output with `absorb` once the producing code returned normally
    pub fn collector(prop: &str) -> Out {
        let mut o = Out::new(prop, 1);
        o.collect_only = true;
        o
    }
    pub fn stat(&mut self, key: &str) {
        *self.stats.entry(key.to_string()).or_insert(0) += 1;
    }
    pub fn stat_n(&mut self, key: &str, k: u64) {
        *self.stats.entry(key.to_string()).or_insert(0) += k;
    }
    // `term` is a Coq term of the property's case type; `json` a JSON object (without id) describing it;
    // `nontrivial` says whether the case exercises more than a degenerate path (by the property's stated rule)
    pub fn case(&mut self, kind: &str, term: String, json: String, nontrivial: bool) {
        if self.collect_only {
            // temporary collector (see `absorb`): keep the case, do not number it
            self.pending.push((kind.to_string(), term, json, nontrivial));
            return;
        }
        let id = self.n;
        self.n += 1;
        let sh = id % self.shards.len();
        if self.counts[sh] > 0 {
            self.shards[sh].push_str(";\n");
        }
        let _ = write!(self.shards[sh], "({}, {})", id, term);
        self.counts[sh] += 1;
        let _ = writeln!(self.jsonl, "{{\"id\":{},\"kind\":\"{}\",\"case\":{}}}", id, kind, json);
        self.stat(&format!("kind.{}", kind));
        if nontrivial {
            if self.distinct.insert(fnv(&term)) {
                self.stat("distinct_nontrivial");
            }
        }
        if self.samples.len() < 6 && (id % 97 == 0 || self.samples.len() < 2) {
            let mut t = term.clone();
            if t.len() > 400 {
                t.truncate(400);
                t.push_str("...");
            }
            self.samples.push(format!("{{\"kind\":\"{}\",\"term\":{:?}}}", kind, t));
        }
    }
    // move the cases recorded in a temporary collector into this one
    pub fn absorb(&mut self, other: Out) {
        for (k, v) in other.stats.iter() {
            if !k.starts_with("kind.") && k != "distinct_nontrivial" {
                self.stat_n(k, *v);
            }
        }
        for p in other.pending {
            self.case(&p.0, p.1, p.2, p.3);
        }
    }
    pub fn finish(&self, outdir: &str, variant: &str) {
        fs::create_dir_all(outdir).unwrap();
        for (k, body) in self.shards.iter().enumerate() {
            let mut s = String::new();
            let _ = writeln!(s, "Require Import SDS.Check.Common SDS.Check.{}.", self.prop);
            let _ = writeln!(s, "From Coq Require Import NArith List. Import ListNotations. Open Scope N_scope.");
            let _ = writeln!(s, "Definition cases : list (N * case) := [\n{}\n].", body);
            let _ = writeln!(s, "Eval vm_compute in (failing check cases).");
            fs::write(Path::new(outdir).join(format!("cases_{}_{}.v", variant, k)), s).unwrap();
        }
        fs::write(Path::new(outdir).join(format!("cases_{}.jsonl", variant)), &self.jsonl).unwrap();
        let mut st = String::from("{");
        let _ = write!(st, "\"evaluations\":{},\"variant\":\"{}\",\"stats\":{{", self.n, variant);
        for (i, (k, v)) in self.stats.iter().enumerate() {
            if i > 0 {
                st.push(',');
            }
            let _ = write!(st, "{:?}:{}", k, v);
        }
        let _ = write!(st, "}},\"samples\":[{}]}}", self.samples.join(","));
        fs::write(Path::new(outdir).join(format!("stats_{}.json", variant)), st).unwrap();
    }
}

// ---------------------------------------------------------------- run-length layout (independent restatement of the format)
// Number of 4-bit code units the published format uses for a value: 3 payload bits per unit, at least one unit.
pub fn rl_units(v: usize) -> usize {
    let bl = if v == 0 { 1 } else { 64 - (v as u64).leading_zeros() as usize };
    (bl + 2) / 3
}

// Maximal runs (adjacent runs merged, empty ones dropped) of a run list in increasing order.
pub fn rl_maximal(runs: &[(usize, usize)]) -> Vec<(usize, usize)> {
    let mut v: Vec<(usize, usize)> = Vec::new();
    for (s, l) in runs.iter() {
        if *l == 0 {
            continue;
        }
        match v.last_mut() {
            Some(last) if last.0 + last.1 == *s => last.1 += *l,
            _ => v.push((*s, *l)),
        }
    }
    v
}

// The maximal runs grouped by the 64-unit block the format puts them in (a run never straddles two blocks).
pub fn rl_blocks(runs: &[(usize, usize)]) -> Vec<Vec<(usize, usize)>> {
    let mut blocks: Vec<Vec<(usize, usize)>> = Vec::new();
    let mut used = 64usize;
    let mut tail = 0usize;
    for (s, l) in rl_maximal(runs) {
        let need = rl_units(s - tail) + rl_units(l - 1);
        if used + need > 64 {
            blocks.push(Vec::new());
            used = 0;
        }
        used += need;
        blocks.last_mut().unwrap().push((s, l));
        tail = s + l;
    }
    blocks
}

// A run list aimed at the block-filling rule: filler runs bring the current block to exactly `64 - need - slack`
// used units, then comes a run whose gap (or length - 1, if `in_len`) is `v` and which needs `need` units, then
// `after` more runs. slack = -1: the run misses the block by one unit; 0: fits exactly; 1: one unit to spare.
// `lead` full blocks of short runs come first.
pub fn rl_directed(rng: &mut Rng, v: usize, in_len: bool, slack: i64, lead: usize, after: usize) -> (usize, Vec<(usize, usize)>) {
    let (g, l) = if in_len { (1 + rng.below(7) as usize, v + 1) } else { (std::cmp::max(v, 1), 1 + rng.below(8) as usize) };
    let need = rl_units(g) + rl_units(l - 1);
    let fill = 64i64 - need as i64 - slack;
    let mut runs: Vec<(usize, usize)> = Vec::new();
    let mut pos = 0usize;
    let mut push = |runs: &mut Vec<(usize, usize)>, gap: usize, len: usize| {
        pos += gap;
        runs.push((pos, len));
        pos += len;
    };
    for _ in 0..(32 * lead) {
        push(&mut runs, 1 + rng.below(7) as usize, 1 + rng.below(8) as usize);
    }
    let mut f = std::cmp::max(fill, 0) as usize;
    if f % 2 == 1 && f >= 3 {
        push(&mut runs, 8 + rng.below(56) as usize, 1 + rng.below(8) as usize); // three units
        f -= 3;
    }
    while f >= 2 {
        push(&mut runs, 1 + rng.below(7) as usize, 1 + rng.below(8) as usize); // two units
        f -= 2;
    }
    push(&mut runs, g, l);
    for _ in 0..after {
        let gap = match rng.below(4) { 0 => 1 + rng.below(7), 1 => 8 + rng.below(56), 2 => 64 + rng.below(448), _ => 1 + rng.below(5000) } as usize;
        let len = match rng.below(3) { 0 => 1, 1 => 1 + rng.below(8), _ => 1 + rng.below(600) } as usize;
        push(&mut runs, gap, len);
    }
    let len = pos + match rng.below(3) { 0 => 0, 1 => 1, _ => rng.below(100) as usize };
    (len, runs)
}

// the values at which the number of code units changes (8^k), with their neighbours
pub fn rl_unit_boundaries(max_exp: u32) -> Vec<usize> {
    let mut v = Vec::new();
    for k in 1..=max_exp {
        let b = 1usize << (3 * k);
        v.extend_from_slice(&[b - 1, b, b + 1]);
    }
    v
}

// Runs laid out over at least two blocks such that the position right after the last run of the second-to-last block
// (what the block sample of the last block stores) is exactly a power of two. The layout is MEASURED with rl_blocks
// after shifting; None when no attempt reached it.
pub fn rl_pow2_tail(rng: &mut Rng, max_exp: u32) -> Option<(usize, Vec<(usize, usize)>)> {
    for _ in 0..60 {
        let n = 12 + rng.below(30) as usize;
        let mut runs: Vec<(usize, usize)> = Vec::new();
        let mut pos = 0usize;
        for _ in 0..n {
            let gap = match rng.below(3) { 0 => 1 + rng.below(7), 1 => 8 + rng.below(56), _ => 64 + rng.below(300) } as usize;
            let len = match rng.below(3) { 0 => 1 + rng.below(8), 1 => 9 + rng.below(55), _ => 65 + rng.below(200) } as usize;
            pos += gap;
            runs.push((pos, len));
            pos += len;
        }
        let blocks = rl_blocks(&runs);
        if blocks.len() < 2 {
            continue;
        }
        let last = *blocks[blocks.len() - 2].last().unwrap();
        let tail = last.0 + last.1;
        let mut k = 1u32;
        while (1usize << k) < tail {
            k += 1;
        }
        if rng.chance(1, 3) {
            k += 1 + rng.below(3) as u32;
        }
        if k > max_exp {
            continue;
        }
        let delta = (1usize << k) - tail;
        let shifted: Vec<(usize, usize)> = runs.iter().map(|(s, l)| (s + delta, *l)).collect();
        let b2 = rl_blocks(&shifted);
        if b2.len() < 2 {
            continue;
        }
        let l2 = *b2[b2.len() - 2].last().unwrap();
        if l2.0 + l2.1 == (1usize << k) {
            let end = shifted[shifted.len() - 1];
            let len = end.0 + end.1 + match rng.below(3) { 0 => 0, 1 => 1, _ => rng.below(50) as usize };
            return Some((len, shifted));
        }
    }
    None
}
