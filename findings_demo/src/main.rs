use simple_sds::bit_vector::BitVector;
use simple_sds::ops::*;
use simple_sds::raw_vector::*;
use simple_sds::rl_vector::*;
use simple_sds::wavelet_matrix::WaveletMatrix;
use simple_sds::wavelet_matrix::wm_core::WMCore;
use simple_sds::serialize::{self, *};
use simple_sds::int_vector::*;
use std::panic;

fn bv() -> BitVector {
    let mut raw = RawVector::with_len(200, false);
    for i in [3usize, 70, 71, 150, 199] { raw.set_bit(i, true); }
    let mut bv = BitVector::from(raw);
    bv.enable_rank(); bv.enable_select(); bv.enable_select_zero();
    bv
}

fn main() {
    let which = std::env::args().nth(1).unwrap();
    let r = panic::catch_unwind(|| {
        match which.as_str() {
            "F1" => { let b = bv(); let mut it = b.one_iter(); it.next(); let x = it.nth(usize::MAX); format!("{:?} then {:?}", x, it.next()) }
            "F2" => { let b = bv(); format!("{:?}", b.predecessor(usize::MAX).next()) }
            "F3" => { let wm = WaveletMatrix::from(vec![1u64, 2, 1, 3]); format!("{:?}", wm.predecessor(usize::MAX, 1).next()) }
            "F4a" => { let wm = WaveletMatrix::from(vec![1u64, 2, 1, 3]); format!("{:?}", wm.select(usize::MAX, 1)) }
            "F4b" => { let c = WMCore::from(vec![1u64, 2, 1, 3]); format!("{:?}", c.map_up_with(0, 1)) }
            "F5" => { let mut b = RLBuilder::new(); b.try_set(2, 3).unwrap(); b.set_len(10); b.try_set(10, 5).unwrap(); let v = RLVector::from(b); format!("{:?} len {}", v.run_iter().collect::<Vec<_>>(), v.len()) }
            "F6a" => { let f = serialize::temp_file_name("demo-empty"); std::fs::write(&f, b"").unwrap(); let m = MemoryMap::new(&f, MappingMode::ReadOnly); let s = format!("{:?}", m.as_ref().map(|m| m.len())); std::fs::remove_file(&f).unwrap(); s }
            "F6b" => { let f = serialize::temp_file_name("demo-big"); std::fs::write(&f, vec![7u8; 64 * 4096]).unwrap();
                       let count = |name: &str| std::fs::read_to_string("/proc/self/maps").unwrap().lines().filter(|l| l.contains(name)).map(|l| { let r: Vec<&str> = l.split(' ').next().unwrap().split('-').collect(); usize::from_str_radix(r[1], 16).unwrap() - usize::from_str_radix(r[0], 16).unwrap() }).sum::<usize>();
                       let name = f.file_name().unwrap().to_str().unwrap().to_string();
                       { let m = MemoryMap::new(&f, MappingMode::ReadOnly).unwrap(); assert_eq!(m.len(), 8 * 4096); }
                       let after = count(&name); std::fs::remove_file(&f).unwrap(); format!("bytes still mapped after drop: {}", after) }
            "F7" => { let v: Option<Vec<u64>> = Some(vec![1, 2, 3, 4, 5]); let mut buf: Vec<u8> = Vec::new(); v.serialize(&mut buf).unwrap(); buf.truncate(buf.len() - 16); let mut rd = &buf[..]; format!("{:?}", serialize::skip_option(&mut rd).map_err(|e| e.kind())) }
            "F8a" => { let mut b = RLBuilder::new(); b.try_set(5, 3).unwrap(); b.set_len(usize::MAX); let v = RLVector::from(b); format!("len {} select_zero(7) {:?}", v.len(), v.select_zero(7)) }
            "F8b" => { let mut b = RLBuilder::new(); let a = (1usize << 63) + 1; b.try_set(0, a).unwrap(); let s2 = a + (1usize << 60); b.try_set(s2, (1usize << 60) + 1).unwrap();
                       let mut pos = s2 + (1usize << 60) + 1; for _ in 0..8 { for _ in 0..32 { pos += 2; b.try_set(pos, 1).unwrap(); pos += 1; } }
                       let v = RLVector::from(b); format!("len {} select_zero(0) {:?} select_zero(1<<60) {:?}", v.len(), v.select_zero(0), v.select_zero(1 << 60)) }
            "F10" => { let f = serialize::temp_file_name("demo-iv"); let iv = IntVector::from(vec![1u64, 2, 3]); serialize::serialize_to(&iv, &f).unwrap(); let m = MemoryMap::new(&f, MappingMode::ReadOnly).unwrap(); let r = IntVectorMapper::new(&m, usize::MAX).map(|x| x.len()).map_err(|e| e.kind()); let s = format!("{:?}", r); drop(m); std::fs::remove_file(&f).unwrap(); s }
            "F12" => { let f = serialize::temp_file_name("demo-f12"); let v: Vec<u64> = vec![3, 2, u64::MAX - 2, u64::MAX - 2]; serialize::serialize_to(&v, &f).unwrap();
                       let m = MemoryMap::new(&f, MappingMode::ReadOnly).unwrap();
                       let r = MappedSlice::<u64>::new(&m, 3);
                       let s = match &r { Ok(sl) => format!("Ok: slice of {} items over a {}-element map, map_len {}", sl.len(), m.len(), sl.map_len()), Err(e) => format!("Err({:?})", e.kind()) };
                       drop(r); drop(m); std::fs::remove_file(&f).unwrap(); s }
            "F13" => { let mut r = RawVector::with_len(1, false); r.set_bit(0, true); r.set_bit(1, true); let b = BitVector::from(r);
                       format!("len {} ones {} zero_iter().next() = {:?}", b.len(), b.count_ones(), b.zero_iter().next()) }
            "F14" => { let f = serialize::temp_file_name("demo-f14"); let v: Vec<u64> = vec![u64::MAX, u64::MAX, 0, 1, 5]; serialize::serialize_to(&v, &f).unwrap();
                       let m = MemoryMap::new(&f, MappingMode::ReadOnly).unwrap();
                       let r = IntVectorMapper::new(&m, 1);
                       let s = match &r { Ok(iv) => format!("Ok: len {} width {} get(len-1) = {:#x}", iv.len(), iv.width(), iv.get(iv.len() - 1)), Err(e) => format!("Err({:?})", e.kind()) };
                       drop(r); drop(m); std::fs::remove_file(&f).unwrap(); s }
            _ => "unknown".to_string(),
        }
    });
    match r { Ok(s) => println!("{}: OK {}", which, s), Err(_) => println!("{}: PANIC", which) }
}
