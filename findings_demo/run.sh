#!/bin/sh
# run all demos in dev and release
for p in "" "--release"; do
  cargo build --offline $p 2>/dev/null >/dev/null || cargo build --offline $p 2>&1 | tail -20
  for f in F1 F2 F3 F4a F4b F5 F6a F6b F7 F8a F8b F10 F12 F13 F14; do
    if [ -z "$p" ]; then b=target/debug/demo; else b=target/release/demo; fi
    out=$($b $f 2>/dev/null); rc=$?
    echo "[${p:-dev}] rc=$rc $out"
  done
done
