#!/bin/sh
# Build everything from files on disk (offline): regenerate coq/gen from /repo/src, compile the whole
# Coq development (full .vo build), build the four harness variants.
cd "$(dirname "$0")" || exit 2
export CARGO_NET_OFFLINE=true
mkdir -p .build evidence replays
python3 tools/gen.py /repo/src || exit 1
tools/mkproject.sh || exit 1
# build exactly the cones of the claimed properties (theorems and correspondence definitions)
targets=$(python3 -c "import json; import glob; print(' '.join(' '.join(['Props/%s.vo' % c['property_id'], 'Check/%s.vo' % c['property_id']] + [f[4:]+'o' for f in sorted(glob.glob('coq/Props/%s_*.v' % c['property_id']))]) for c in json.load(open('MANIFEST.json'))['checks']))")
( cd coq && timeout 7000 make -j16 $targets ) || exit 1
[ -f harness/Cargo.lock ] || cp /repo/Cargo.lock harness/Cargo.lock
for v in native_dev native_release portable_dev portable_release; do
  case $v in native_*) flags="-C target-cpu=native";; *) flags="";; esac
  case $v in *_release) rel="--release";; *) rel="";; esac
  ( cd harness && CARGO_TARGET_DIR=../.build/target-$v RUSTFLAGS="$flags" cargo build --offline $rel --features hooks ) || exit 1
done
echo setup done
